"""E4 — index-space typing of per-block lists (a units-of-measure style checker).

Spaces:  G  all blocks of a param group            L  blocks owned by this rank
         GM blocks with a gradient this step        LM owned blocks with a gradient this step
Types:   ("list", space, elem)  elem = None | ("idx", space)      a per-block list living in `space`
         ("sel", a, b)          a selector over lists of space a producing lists of space b
         ("alltrue", a)         an all-True selector/list over space a (identity mask)
         ("idx", space)         an integer index into lists of `space`
         None                   unknown / not a per-block list

Seeds (frozen, from reading shampoo_distributor.py; everything else is inferred):
  _global_blocked_params : list G        _distributor_selector : sel G->L
  _global_grad_selector  : sel G->GM     _local_grad_selector  : sel L->LM
  return of _merge_and_block_gradients : list LM   (built per parameter from gradient blocks that exist and are owned)
"""

from __future__ import annotations

import ast
from collections import defaultdict
from dataclasses import dataclass, field

from . import astutil as A
from .loader import AnalysisError, ClassInfo, FuncInfo, Repo

DS = "distributed_shampoo.distributed_shampoo:DistributedShampoo"
DIST_BASE = "distributed_shampoo.utils.shampoo_distributor:DistributorInterface"
PL_BASE = "distributed_shampoo.utils.shampoo_preconditioner_list:PreconditionerList"

SEED_ATTRS = {
    "_global_blocked_params": ("list", "G", None),
    "_distributor_selector": ("sel", "G", "L"),
    "_global_grad_selector": ("sel", "G", "GM"),
    "_local_grad_selector": ("sel", "L", "LM"),
}
SEED_RETURNS = {"_merge_and_block_gradients": ("list", "LM", None)}
MASK_OF = {"G": "GM", "L": "LM"}
# identity-mask initialisations accepted in constructors (all blocks active / all blocks local)
INIT_COERCIONS = {("L", "LM"), ("G", "GM"), ("G", "L"), ("G", "LM")}


def is_list(t) -> bool:
    return isinstance(t, tuple) and t and t[0] == "list"


def space_of(t):
    if isinstance(t, tuple) and t and t[0] in ("list", "alltrue"):
        return t[1]
    return None


def show(t) -> str:
    if t is None:
        return "?"
    if t[0] == "list":
        return f"list[{t[1]}]" + (f" of idx[{t[2][1]}]" if t[2] else "")
    if t[0] == "sel":
        return f"selector[{t[1]}->{t[2]}]"
    if t[0] == "alltrue":
        return f"all-true[{t[1]}]"
    if t[0] == "idx":
        return f"idx[{t[1]}]"
    return str(t)


@dataclass
class Site:
    kind: str  # compress | foreach | zip | ctor | subscript | assign | call
    func: FuncInfo
    cls: ClassInfo | None
    node: ast.AST
    ok: bool
    detail: str
    typed: bool  # at least two operands had a known space (non-trivial)
    dst_space: str | None = None
    inplace: bool = False


@dataclass
class Scope:
    fi: FuncInfo
    cls: ClassInfo | None
    locals: dict[str, object] = field(default_factory=dict)
    slot_alias: dict[str, str] = field(default_factory=dict)  # local bound once to state_lists[KEY] -> KEY


class Spaces:
    def __init__(self, repo: Repo, pts=None) -> None:
        self.repo = repo
        self.pts = pts
        self.ds = repo.cls(DS)
        self.dist_classes = repo.concrete_subclasses(repo.cls(DIST_BASE))
        self.pl_classes = repo.concrete_subclasses(repo.cls(PL_BASE))
        self.attr: dict[tuple[str, str], object] = {}  # (class qual, attr) -> type
        self.attr_sites: dict[tuple[str, str], list] = defaultdict(list)  # assignments (type, func, node)
        self.slot: dict[str, object] = {}
        self.slot_sites: dict[str, list] = defaultdict(list)
        self.slot_classes: dict[str, set[str]] = defaultdict(set)  # slots holding objects: key -> class quals
        self.formal: dict[tuple[str, str], object] = {}
        self.ret: dict[tuple[str, str | None], object] = {}
        self.sites: list[Site] = []
        self.conflicts: list[tuple[str, str, object, object, FuncInfo, ast.AST]] = []
        self.identity_cls: set[str] = set()
        self._find_identity_classes()
        for c in self.dist_classes:
            for a, t in SEED_ATTRS.items():
                self.attr[(c.qual, a)] = self.canon(t, c)
        self._infer()

    def _find_identity_classes(self) -> None:
        """Distributors whose distributor selector is all-True (every block is local): there L = G and LM = GM."""
        for c in self.dist_classes:
            for f in self.methods_of(c):
                for n in A.walk_no_nested(f.node):
                    if isinstance(n, (ast.Assign, ast.AnnAssign)) and n.value is not None:
                        tg = n.targets[0] if isinstance(n, ast.Assign) else n.target
                        if isinstance(tg, ast.Attribute) and tg.attr == "_distributor_selector" and isinstance(tg.value, ast.Name) and tg.value.id == "self":
                            v = n.value
                            if self._is_alltrue(v) or (isinstance(v, ast.Attribute) and v.attr == "_local_grad_selector"):
                                self.identity_cls.add(c.qual)

    def canon(self, t, c: ClassInfo | None):
        if t is None or c is None or c.qual not in self.identity_cls:
            return t
        m = {"G": "L", "GM": "LM"}
        if t[0] in ("list", "alltrue"):
            return (t[0], m.get(t[1], t[1])) + tuple(t[2:])
        if t[0] == "sel":
            return ("sel", m.get(t[1], t[1]), m.get(t[2], t[2]))
        if t[0] == "idx":
            return ("idx", m.get(t[1], t[1]))
        return t

    # ------------------------------------------------------------------ scopes to analyse
    def methods_of(self, c: ClassInfo) -> list[FuncInfo]:
        # every method along the MRO (overridden ones are still reachable through super())
        out = []
        for k in self.repo.mro(c):
            out.extend(f for f in k.methods.values() if not f.is_abstract)
        return out

    def scopes(self) -> list[tuple[ClassInfo, FuncInfo]]:
        out = []
        for c in [self.ds] + self.dist_classes + self.pl_classes:
            for f in self.methods_of(c):
                out.append((c, f))
        return out

    # ------------------------------------------------------------------ inference
    def _join(self, a, b, where=None):
        if a is None:
            return b
        if b is None:
            return a
        if a == b:
            return a
        if a[0] == "alltrue" and b[0] in ("sel", "list") and b[1] == a[1]:
            return b
        if b[0] == "alltrue" and a[0] in ("sel", "list") and a[1] == b[1]:
            return a
        if a[0] == "list" and b[0] == "list" and a[1] == b[1]:
            return ("list", a[1], a[2] or b[2])
        return a  # conflict: keep the first; conflicts are reported at assignment sites

    def _infer(self) -> None:
        for _ in range(8):
            before = (dict(self.attr), dict(self.slot), dict(self.formal), dict(self.ret))
            self.sites = []
            self.attr_sites.clear()
            self.slot_sites.clear()
            for c, f in self.scopes():
                self._scan(c, f)
            if before == (self.attr, self.slot, self.formal, self.ret):
                break

    @staticmethod
    def _is_alltrue(v: ast.AST) -> bool:
        return isinstance(v, ast.BinOp) and isinstance(v.op, ast.Mult) and isinstance(v.left, ast.Tuple) and len(v.left.elts) == 1 and isinstance(v.left.elts[0], ast.Constant) and v.left.elts[0].value is True

    def _scan(self, c: ClassInfo, f: FuncInfo) -> None:
        sc = Scope(f, c)
        # formals
        for p in f.params:
            t = self.formal.get((f.qual, p))
            if t is not None:
                sc.locals[p] = t
        # `d = state_lists[KEY]` (only binding of d): d.<property> is typed like state_lists[KEY].<property>
        for n in A.walk_no_nested(f.node):
            if isinstance(n, ast.Assign) and len(n.targets) == 1 and isinstance(n.targets[0], ast.Name) and isinstance(n.value, ast.Subscript):
                nm, key = A.subscript_key(self.repo, f.module, n.value)
                if nm is not None and isinstance(key, str) and self._is_state_lists(nm, sc) and self._bound_once(f, n.targets[0].id):
                    sc.slot_alias[n.targets[0].id] = key
        # three passes so that locals defined later are visible to earlier uses (flow-insensitive; chains of two locals)
        for _ in range(3):
            self._bind_locals(sc)
        self._check_sites(sc)
        # returns
        rets = [n.value for n in A.walk_no_nested(f.node) if isinstance(n, ast.Return) and n.value is not None]
        key = (f.qual, c.qual)
        seed = self.canon(SEED_RETURNS.get(f.name), c)
        t = seed
        if t is None:
            for r in rets:
                t = self._join(t, self.ty(r, sc))
        if t is not None:
            self.ret[key] = t

    def _bind_locals(self, sc: Scope) -> None:
        f = sc.fi
        for n in A.walk_no_nested(f.node):
            if isinstance(n, (ast.Assign, ast.AnnAssign)):
                targets = n.targets if isinstance(n, ast.Assign) else [n.target]
                if n.value is None:
                    continue
                t = self.ty(n.value, sc)
                for tg in targets:
                    self._bind(tg, t, n, sc)
            elif isinstance(n, ast.NamedExpr):
                self._bind(n.target, self.ty(n.value, sc), n, sc)
            elif isinstance(n, (ast.For, ast.comprehension)):
                self._bind_iter(n.target, n.iter, sc)
                if isinstance(n, ast.For):
                    # a list filled by one unconditional append per iteration lives in the space of the iterated list
                    sp = space_of(self.ty(n.iter, sc))
                    if sp is not None:
                        for st in n.body:
                            if isinstance(st, ast.Expr) and isinstance(st.value, ast.Call) and isinstance(st.value.func, ast.Attribute) and st.value.func.attr == "append" and isinstance(st.value.func.value, ast.Name):
                                nm = st.value.func.value.id
                                sc.locals[nm] = self._join(sc.locals.get(nm), ("list", sp, None))

    @staticmethod
    def _bound_once(f: FuncInfo, name: str) -> bool:
        n_bind = sum(1 for x in ast.walk(f.node) if isinstance(x, ast.Name) and x.id == name and isinstance(x.ctx, (ast.Store, ast.Del)))
        return n_bind == 1 and name not in f.params

    def _bind_iter(self, target: ast.AST, it: ast.AST, sc: Scope) -> None:
        # for idx, x in enumerate(X): idx : idx[space(X)]
        if isinstance(it, ast.Call) and isinstance(it.func, ast.Name) and it.func.id == "enumerate" and it.args and isinstance(target, ast.Tuple) and target.elts:
            s = space_of(self.ty(it.args[0], sc))
            if s is not None and isinstance(target.elts[0], ast.Name):
                sc.locals[target.elts[0].id] = ("idx", s)
        # elements of a list of indices are indices
        t = self.ty(it, sc)
        if is_list(t) and t[2] is not None and isinstance(target, ast.Name):
            sc.locals[target.id] = t[2]

    def _bind(self, tg: ast.AST, t, node: ast.AST, sc: Scope) -> None:
        m = sc.fi.module
        if isinstance(tg, ast.Name):
            if t is not None:
                sc.locals[tg.id] = self._join(sc.locals.get(tg.id), t)
        elif isinstance(tg, ast.Attribute) and isinstance(tg.value, ast.Name) and tg.value.id == "self" and sc.cls is not None:
            key = (sc.cls.qual, tg.attr)
            self.attr_sites[key].append((t, sc.fi, node))
            if t is not None and tg.attr not in SEED_ATTRS:
                cur = self.attr.get(key)
                if cur is None:
                    self.attr[key] = t
                elif self._prefers(t, cur):
                    self.attr[key] = t
        elif isinstance(tg, ast.Subscript):
            nm, key = A.subscript_key(self.repo, m, tg)
            if nm is not None and isinstance(key, str) and self._is_state_lists(nm, sc):
                self.slot_sites[key].append((t, sc.fi, node))
                if isinstance(node, (ast.Assign, ast.AnnAssign)) and node.value is not None:
                    for cq in self._classes_of_value(node.value, sc):
                        self.slot_classes[key].add(cq)
                if t is not None:
                    cur = self.slot.get(key)
                    if cur is None or self._prefers(t, cur):
                        self.slot[key] = t

    def _prefers(self, new, cur) -> bool:
        """Masked spaces win over their unmasked twins (constructors initialise masked attrs with the identity mask)."""
        if new[0] == "list" and cur[0] == "list":
            return (cur[1], new[1]) in INIT_COERCIONS or (cur[1] == new[1] and cur[2] is None and new[2] is not None)
        return False

    def _is_state_lists(self, name: str, sc: Scope) -> bool:
        return name == "state_lists"

    def _classes_of_value(self, v: ast.AST, sc: Scope) -> set[str]:
        """Classes a `state_lists[KEY] = <callable>(...)` assignment may instantiate (via points-to if available)."""
        out: set[str] = set()
        if self.pts is not None:
            for o in self.pts.expr(sc.fi.qual, v):
                if o[0] == "O":
                    out.add(o[1])
        return out

    # ------------------------------------------------------------------ expression typing
    def ty(self, e: ast.AST, sc: Scope):
        repo, m = self.repo, sc.fi.module
        if isinstance(e, ast.Name):
            return sc.locals.get(e.id)
        if isinstance(e, ast.Attribute):
            if isinstance(e.value, ast.Name) and e.value.id == "self" and sc.cls is not None:
                return self._attr_type(sc.cls, e.attr)
            # property on an object held in a state_lists slot (or on the only-once bound local alias of the slot)
            if isinstance(e.value, ast.Name) and e.value.id in sc.slot_alias:
                nm, key = "state_lists", sc.slot_alias[e.value.id]
            else:
                nm, key = A.subscript_key(repo, m, e.value)
            if nm is not None and isinstance(key, str) and self._is_state_lists(nm, sc):
                t = None
                for cq in sorted(self.slot_classes.get(key, ())):
                    ci = repo.classes.get(cq)
                    if ci is not None:
                        t = self._join(t, self._attr_type(ci, e.attr))
                return t
            return None
        if isinstance(e, ast.Subscript):
            nm, key = A.subscript_key(repo, m, e)
            if nm is not None and isinstance(key, str) and self._is_state_lists(nm, sc):
                return self.slot.get(key)
            base = self.ty(e.value, sc)
            if isinstance(e.slice, ast.Slice):
                return base
            if is_list(base):
                return base[2]
            return None
        if isinstance(e, ast.IfExp):
            return self._join(self.ty(e.body, sc), self.ty(e.orelse, sc))
        if isinstance(e, ast.BinOp) and isinstance(e.op, ast.Mult):
            # (True,) * len(X)   /   [0] * len(X)
            for side, other in ((e.left, e.right), (e.right, e.left)):
                if isinstance(side, (ast.Tuple, ast.List)) and isinstance(other, ast.Call) and isinstance(other.func, ast.Name) and other.func.id == "len" and other.args:
                    s = space_of(self.ty(other.args[0], sc))
                    if s is not None:
                        return ("alltrue", s) if self._is_alltrue(e) else ("list", s, None)
            return None
        if isinstance(e, (ast.GeneratorExp, ast.ListComp)):
            if len(e.generators) != 1:
                return None
            g = e.generators[0]
            self._bind_iter(g.target, g.iter, sc)
            t = self.ty(g.iter, sc)
            s = space_of(t)
            if s is None:
                return None
            et = self.ty(e.elt, sc)
            return ("list", s, et if (isinstance(et, tuple) and et[0] == "idx") else None)
        if isinstance(e, ast.Call):
            return self._call_type(e, sc)
        return None

    def _attr_type(self, c: ClassInfo, attr: str):
        meth = self.repo.lookup_method(c, attr)
        if meth is not None and meth.is_property:
            rets = [n.value for n in A.walk_no_nested(meth.node) if isinstance(n, ast.Return) and n.value is not None]
            t = None
            for r in rets:
                t = self._join(t, self.ty(r, Scope(meth, c)))
            return t
        return self.attr.get((c.qual, attr))

    def _call_type(self, e: ast.Call, sc: Scope):
        repo, m = self.repo, sc.fi.module
        name = A.callee_name(repo, m, e)
        if name.endswith("shampoo_utils.compress_list") and len(e.args) >= 2:
            x, s = self.ty(e.args[0], sc), self.ty(e.args[1], sc)
            if isinstance(s, tuple) and s[0] == "sel":
                if isinstance(x, tuple) and x[0] == "sel":
                    # restricting a gradient selector to the blocks picked by `s`
                    return ("sel", s[2], MASK_OF.get(s[2], s[2] + "M"))
                return ("list", s[2], x[2] if is_list(x) else None)
            return None
        if name in ("builtins.tuple", "tuple", "list", "builtins.list", "iter", "reversed") or (isinstance(e.func, ast.Name) and e.func.id in ("tuple", "list", "iter")):
            return self.ty(e.args[0], sc) if e.args else None
        if isinstance(e.func, ast.Name) and e.func.id == "range" and len(e.args) == 1:
            a = e.args[0]
            if isinstance(a, ast.Call) and isinstance(a.func, ast.Name) and a.func.id == "len" and a.args:
                s = space_of(self.ty(a.args[0], sc))
                if s is not None:
                    return ("list", s, ("idx", s))
            return None
        if isinstance(e.func, ast.Name) and e.func.id in ("zip", "enumerate"):
            t = None
            for a in e.args:
                t = self._join(t, self._as_plain_list(self.ty(a, sc)))
            return t
        if name.startswith("torch._foreach_") and not name.endswith("_"):
            t = None
            for a in e.args:
                t = self._join(t, self._as_plain_list(self.ty(a, sc)))
            return t
        # method call on self / slot object: return-type table
        f = e.func
        if isinstance(f, ast.Attribute) and not (isinstance(f.value, ast.Name) and f.value.id == "self"):
            d = repo.dotted_of(m, f)
            fi = repo.func_by_dotted(d) if d else None
            if fi is not None:
                t = None
                for (q, cq), rt in self.ret.items():
                    if q == fi.qual and (sc.cls is None or cq == sc.cls.qual or fi.is_static):
                        t = self._join(t, rt)
                if t is not None:
                    return t
        if isinstance(f, ast.Attribute):
            if isinstance(f.value, ast.Name) and f.value.id == "self" and sc.cls is not None:
                meth = repo.lookup_method(sc.cls, f.attr)
                if meth is not None:
                    if meth.name in SEED_RETURNS:
                        return self.canon(SEED_RETURNS[meth.name], sc.cls)
                    return self.ret.get((meth.qual, sc.cls.qual))
            nm, key = A.subscript_key(repo, m, f.value)
            if nm is not None and isinstance(key, str) and self._is_state_lists(nm, sc):
                t = None
                for cq in sorted(self.slot_classes.get(key, ())):
                    ci = repo.classes.get(cq)
                    meth = repo.lookup_method(ci, f.attr) if ci else None
                    if meth is not None:
                        t = self._join(t, SEED_RETURNS.get(meth.name) or self.ret.get((meth.qual, cq)))
                        # precondition(masked_grad_list=X) of the identity (SGD) list returns its argument
                        if t is None and meth.name == "precondition":
                            for a in list(e.args) + [k.value for k in e.keywords]:
                                t = self._join(t, self.ty(a, sc))
                return t
        return None

    @staticmethod
    def _as_plain_list(t):
        if isinstance(t, tuple) and t[0] == "list":
            return ("list", t[1], None)
        return None

    # ------------------------------------------------------------------ sites
    def _record(self, kind, sc, node, ok, detail, typed, dst_space=None, inplace=False) -> None:
        self.sites.append(Site(kind, sc.fi, sc.cls, node, ok, detail, typed, dst_space, inplace))

    def _check_sites(self, sc: Scope) -> None:
        repo, f, m = self.repo, sc.fi, sc.fi.module
        for n in A.walk_no_nested(f.node):
            if isinstance(n, ast.Call):
                name = A.callee_name(repo, m, n)
                if name.endswith("shampoo_utils.compress_list") and len(n.args) >= 2:
                    x, s = self.ty(n.args[0], sc), self.ty(n.args[1], sc)
                    xs = space_of(x)
                    if isinstance(x, tuple) and x[0] == "sel":
                        xs = x[1]
                    if isinstance(s, tuple) and s[0] == "sel" and xs is not None:
                        ok = xs == s[1]
                        self._record("compress", sc, n, ok, f"compress_list({ast.unparse(n.args[0])}: {show(x)}, {ast.unparse(n.args[1])}: {show(s)})" + ("" if ok else f" — the selector masks lists of space {s[1]}, the list lives in {xs}"), True)
                    else:
                        self._record("compress", sc, n, True, f"compress_list({ast.unparse(n.args[0])}: {show(x)}, {ast.unparse(n.args[1])}: {show(s)})", False)
                elif name.startswith("torch._foreach_"):
                    typed = [(a, self.ty(a, sc)) for a in n.args]
                    lists = [(a, t) for a, t in typed if space_of(t) is not None]
                    spaces = {space_of(t) for _, t in lists}
                    inplace = name.endswith("_")
                    dst = space_of(typed[0][1]) if typed else None
                    ok = len(spaces) <= 1
                    self._record("foreach", sc, n, ok, f"{name}(" + ", ".join(f"{ast.unparse(a)}: {show(t)}" for a, t in typed if t is not None) + ")" + ("" if ok else " — operands live in different index spaces"), len(lists) >= 2, dst, inplace)
                    if inplace and len(lists) < 2:
                        pass
                elif isinstance(n.func, ast.Name) and n.func.id == "zip":
                    typed = [(a, self.ty(a, sc)) for a in n.args]
                    lists = [(a, t) for a, t in typed if space_of(t) is not None]
                    spaces = {space_of(t) for _, t in lists}
                    ok = len(spaces) <= 1
                    if lists:
                        self._record("zip", sc, n, ok, "zip(" + ", ".join(f"{ast.unparse(a)}: {show(t)}" for a, t in lists) + ")" + ("" if ok else " — zipped lists live in different index spaces"), len(lists) >= 2)
                else:
                    # constructors of list classes and calls to repo methods: actual/formal agreement
                    self._check_call(n, sc)
            elif isinstance(n, ast.Subscript) and not isinstance(n.slice, ast.Slice):
                base, idx = self.ty(n.value, sc), self.ty(n.slice, sc)
                if is_list(base) and isinstance(idx, tuple) and idx[0] == "idx":
                    ok = base[1] == idx[1]
                    self._record("subscript", sc, n, ok, f"{ast.unparse(n.value)}: {show(base)} indexed by {ast.unparse(n.slice)}: {show(idx)}" + ("" if ok else " — index and list live in different index spaces"), True)

    def _callee_infos(self, n: ast.Call, sc: Scope) -> list[tuple[FuncInfo, ClassInfo | None, bool]]:
        """(callee, receiver class, is_constructor) candidates for a call, resolved syntactically over self / slots / classes."""
        repo, m = self.repo, sc.fi.module
        f = n.func
        out = []
        if isinstance(f, ast.Attribute) and isinstance(f.value, ast.Call) and isinstance(f.value.func, ast.Name) and f.value.func.id == "super" and sc.cls is not None and sc.fi.cls is not None:
            meth = repo.lookup_method(sc.cls, f.attr, after=sc.fi.cls)
            if meth is not None:
                out.append((meth, sc.cls, False))
        elif isinstance(f, ast.Attribute):
            if isinstance(f.value, ast.Name) and f.value.id == "self" and sc.cls is not None:
                meth = repo.lookup_method(sc.cls, f.attr)
                if meth is not None:
                    out.append((meth, sc.cls, False))
            else:
                nm, key = A.subscript_key(repo, m, f.value)
                if nm is not None and isinstance(key, str) and self._is_state_lists(nm, sc):
                    for cq in sorted(self.slot_classes.get(key, ())):
                        ci = repo.classes.get(cq)
                        meth = repo.lookup_method(ci, f.attr) if ci else None
                        if meth is not None:
                            out.append((meth, ci, False))
                else:
                    d = repo.dotted_of(m, f)
                    fi = repo.func_by_dotted(d) if d else None
                    if fi is not None:
                        out.append((fi, fi.cls, False))
        else:
            d = repo.dotted_of(m, f)
            ci = repo.class_by_dotted(d) if d else None
            if ci is not None:
                init = repo.lookup_method(ci, "__init__")
                if init is not None:
                    out.append((init, ci, True))
            elif isinstance(f, ast.Name) and f.id in sc.locals_cls if hasattr(sc, "locals_cls") else False:
                pass
        return out

    def _check_call(self, n: ast.Call, sc: Scope) -> None:
        cands = self._callee_infos(n, sc)
        # `preconditioner_list_cls(...)`: local bound to classes
        if not cands and isinstance(n.func, ast.Name):
            for v in A.assignments_to(sc.fi.node, n.func.id):
                d = self.repo.dotted_of(sc.fi.module, v)
                ci = self.repo.class_by_dotted(d) if d else None
                if ci is not None:
                    init = self.repo.lookup_method(ci, "__init__")
                    if init is not None:
                        cands.append((init, ci, True))
        for fi, rc, is_ctor in cands:
            actuals = []
            for p in fi.params[1:] if (fi.cls is not None and not fi.is_static) else fi.params:
                a = A.arg_of(n, fi, p)
                if a is not None:
                    t = self.ty(a, sc)
                    actuals.append((p, a, t))
                    if t is not None:
                        key = (fi.qual, p)
                        cur = self.formal.get(key)
                        if cur is None:
                            self.formal[key] = t
                        elif cur != t and not (cur[0] == t[0] == "list" and cur[1] == t[1]):
                            if (cur[0] == "alltrue") != (t[0] == "alltrue") and cur[1] == t[1]:
                                pass
                            else:
                                self._record("call", sc, n, False, f"formal `{p}` of {fi.qual.split(':')[1]} receives {show(t)} here but {show(cur)} at another call site", True)
            if is_ctor:
                lists = [(p, a, t) for p, a, t in actuals if space_of(t) is not None and t[0] == "list"]
                spaces = {t[1] for _, _, t in lists}
                if lists:
                    ok = len(spaces) <= 1
                    self._record("ctor", sc, n, ok, f"{rc.name}(" + ", ".join(f"{p}={ast.unparse(a)}: {show(t)}" for p, a, t in lists) + ")" + ("" if ok else " — constructor arguments live in different index spaces"), len(lists) >= 2, next(iter(spaces)) if len(spaces) == 1 else None)
