"""E11b — term-valued abstract interpretation ("algebraic shadow") of the element-wise tensor sub-language.

The interpreter walks the AST of one function (inlining listed callees) with every tensor replaced by a mutable cell
holding an exact term (sv/terms.py) for *one representative element* of a per-block list: `torch._foreach_*` and the
per-block loops are element-wise over aligned lists, so one representative describes every block.  In-place operations
update the cell (aliases see the update), out-of-place operations create new cells.  Branches on scalar flags are
decided by the case the rule supplies (concrete flag values; symbolic scalars are *generic*: different from every
constant and from each other).  The result is compared with the documented recurrence as rational functions — an exact
algebraic identity check; no numeric evaluation, no solver, nothing from /repo is executed.

Anything outside the sub-language raises Unsupported (=> ANALYSIS-ERROR, never a verdict).
"""

from __future__ import annotations

import ast
from fractions import Fraction
from typing import Any, Callable

from . import astutil as A
from .guards import Unsupported
from .loader import FuncInfo, Repo
from .terms import Atoms, Rat


class Cell:
    __slots__ = ("v", "name", "base")

    def __init__(self, v: Rat, name: str = "", base: "Cell | None" = None) -> None:
        self.v = v
        self.name = name
        self.base = base  # the tensor this one is a view of (element / slice): an in-place update writes through

    def __repr__(self) -> str:
        return f"Cell({self.v})"


class ListRep:
    """A per-block list represented by one element (Cell / Obj / tuple)."""

    __slots__ = ("elem", "empty")

    def __init__(self, elem: Any, empty: bool = False) -> None:
        self.elem = elem
        self.empty = empty


class Obj:
    """Symbolic object with lazily created fields (e.g. a Kronecker-factors record, `self`)."""

    def __init__(self, name: str, fields: dict[str, Any] | None = None) -> None:
        self.name = name
        self.fields = dict(fields or {})


class _Return(Exception):
    def __init__(self, value: Any) -> None:
        self.value = value


GENERIC = object()


class Shadow:
    def __init__(self, repo: Repo, atoms: Atoms, inline: set[str] | None = None, opaque: dict[str, Callable] | None = None, decide: Callable[[ast.AST, "Shadow"], bool | None] | None = None) -> None:
        self.repo = repo
        self.atoms = atoms
        self.inline = inline or set()
        self.opaque = opaque or {}
        self.decide = decide
        self.slots: dict[str, Any] = {}
        self.trace: list[str] = []

    # ------------------------------------------------------------------ helpers
    def rat(self, x: Any) -> Rat:
        if isinstance(x, Cell):
            return x.v
        if isinstance(x, Rat):
            return x
        if isinstance(x, bool):
            raise Unsupported("boolean used as a number")
        if isinstance(x, (int, float, Fraction)):
            return Rat.const(self.atoms, x)
        raise Unsupported(f"value of kind {type(x).__name__} used as a number")

    def _write_through(self, cell: "Cell", new: Rat) -> None:
        """An in-place update of a view changes the tensor(s) it is a view of: their value is no longer the known term."""
        b = cell.base
        while b is not None:
            b.v = Rat.app(self.atoms, "written-through-a-view", (b.v, new))
            b = b.base

    def sym(self, name: str) -> Rat:
        return Rat.sym(self.atoms, name)

    def new(self, v: Any) -> Cell:
        return Cell(self.rat(v))

    def lift(self, x: Any) -> Any:
        """list-or-tensor argument of a foreach op -> its representative cell / scalar"""
        if isinstance(x, ListRep):
            return x.elem
        if isinstance(x, (list, tuple)) and x and all(isinstance(v, (Cell, Rat, int, float, Fraction)) and not isinstance(v, bool) for v in x):
            # a python list filled by `append` in the (one symbolic) iteration of a loop: its elements all have the loop body's value
            first = self.rat(x[0])
            if all(self.rat(v) == first for v in x[1:]):
                return x[0]
        return x

    # ------------------------------------------------------------------ running a function
    def run(self, fi: FuncInfo, env: dict[str, Any], selfobj: Obj | None = None) -> Any:
        frame = dict(env)
        if selfobj is not None and fi.params and fi.params[0] == "self":
            frame["self"] = selfobj
        a = fi.node.args
        names = [x.arg for x in a.posonlyargs + a.args]
        for n, d in list(zip(names[len(names) - len(a.defaults) :], a.defaults)) + [(x.arg, d) for x, d in zip(a.kwonlyargs, a.kw_defaults) if d is not None]:
            if n not in frame:
                frame[n] = self.ev(d, {}, fi)
        for n in names + [x.arg for x in a.kwonlyargs]:
            if n not in frame:  # an input the rule does not model (e.g. a config object): a record with symbolic fields
                frame[n] = Obj(n)
        try:
            self.block(fi.node.body, frame, fi)
        except _Return as r:
            return r.value
        return None

    def block(self, stmts: list[ast.stmt], fr: dict, fi: FuncInfo) -> None:
        for st in stmts:
            self.stmt(st, fr, fi)

    def stmt(self, st: ast.stmt, fr: dict, fi: FuncInfo) -> None:
        if isinstance(st, ast.Expr):
            if isinstance(st.value, (ast.Constant, ast.JoinedStr)):
                return
            self.ev(st.value, fr, fi)
        elif isinstance(st, ast.Assign):
            v = self.ev(st.value, fr, fi)
            for t in st.targets:
                self.assign(t, v, fr, fi)
        elif isinstance(st, ast.AnnAssign):
            if st.value is not None:
                self.assign(st.target, self.ev(st.value, fr, fi), fr, fi)
        elif isinstance(st, ast.AugAssign):
            cur = self.ev(st.target, fr, fi)
            rhs = self.ev(st.value, fr, fi)
            new = self.binop(st.op, cur, rhs)
            if isinstance(cur, Cell):
                cur.v = self.rat(new)  # tensors: `L += x` is in place
                b = cur.base
                k = 0
                while b is not None:  # ... and writes through to whatever it is a view of: that tensor's value is no longer known
                    k += 1
                    b.v = Rat.app(self.atoms, "written-through-a-view", (b.v, self.rat(new)))
                    b = b.base
            else:
                self.assign(st.target, new, fr, fi)
        elif isinstance(st, ast.If):
            t = self.truth(st.test, fr, fi)
            self.block(st.body if t else st.orelse, fr, fi)
        elif isinstance(st, (ast.With, ast.AsyncWith)):
            self.block(st.body, fr, fi)
        elif isinstance(st, ast.Return):
            raise _Return(self.ev(st.value, fr, fi) if st.value is not None else None)
        elif isinstance(st, ast.For):
            it = self.ev(st.iter, fr, fi)
            if not isinstance(it, ListRep):
                raise Unsupported(f"loop over {ast.unparse(st.iter)[:50]}")
            if not it.empty:
                self.assign(st.target, it.elem, fr, fi)
                self.block(st.body, fr, fi)  # one representative iteration
        elif isinstance(st, ast.While):
            if not getattr(self, "loop_once", False):
                raise Unsupported("while loop")
            self.block(st.body, fr, fi)  # one representative iteration (the loop condition is checked separately)
        elif isinstance(st, ast.Try):
            # the no-exception path (fault paths are the subject of C13, not of the arithmetic)
            self.block(st.body, fr, fi)
            self.block(st.orelse, fr, fi)
            self.block(st.finalbody, fr, fi)
        elif isinstance(st, (ast.Pass, ast.Assert)):
            return
        elif isinstance(st, ast.Raise):
            raise Unsupported("raise reached on the interpreted path")
        else:
            raise Unsupported(f"statement {type(st).__name__}")

    def assign(self, t: ast.AST, v: Any, fr: dict, fi: FuncInfo) -> None:
        if isinstance(t, ast.Name):
            fr[t.id] = v
        elif isinstance(t, (ast.Tuple, ast.List)):
            if not isinstance(v, tuple) or len(v) != len(t.elts):
                raise Unsupported(f"destructuring {ast.unparse(t)}")
            for x, y in zip(t.elts, v):
                self.assign(x, y, fr, fi)
        elif isinstance(t, ast.Attribute):
            base = self.ev(t.value, fr, fi)
            if not isinstance(base, Obj):
                raise Unsupported(f"attribute store on {type(base).__name__}")
            base.fields[t.attr] = v
        elif isinstance(t, ast.Subscript):
            nm, key = A.subscript_key(self.repo, fi.module, t)
            if nm is not None and isinstance(key, str) and isinstance(fr.get(nm), dict):
                fr[nm][key] = v
            else:
                raise Unsupported(f"subscript store {ast.unparse(t)[:40]}")
        else:
            raise Unsupported("assignment target")

    # ------------------------------------------------------------------ tests
    def truth(self, t: ast.AST, fr: dict, fi: FuncInfo) -> bool:
        if self.decide is not None:
            d = self.decide(t, self)
            if d is not None:
                return d
        if "len(" in ast.unparse(t):
            from .astutil import emptiness_normal

            t2 = emptiness_normal(t)  # the lists of the shadow state are tuples / lists: `len(xs) != 0` is `xs`
            if ast.unparse(t2) != ast.unparse(t):
                return self.truth(t2, fr, fi)
        if isinstance(t, ast.BoolOp):
            vals = [self.truth(v, fr, fi) for v in t.values] if isinstance(t.op, ast.And) else None
            if isinstance(t.op, ast.And):
                return all(vals)
            return any(self.truth(v, fr, fi) for v in t.values)
        if isinstance(t, ast.UnaryOp) and isinstance(t.op, ast.Not):
            return not self.truth(t.operand, fr, fi)
        if isinstance(t, ast.Compare) and len(t.ops) == 1:
            l, r = self.ev(t.left, fr, fi), self.ev(t.comparators[0], fr, fi)
            op = t.ops[0]
            if isinstance(op, (ast.Is, ast.IsNot)):
                return (l is r) == isinstance(op, ast.Is)
            lc = self._const(l)
            rc = self._const(r)
            if lc is not None and rc is not None:
                return {ast.Eq: lc == rc, ast.NotEq: lc != rc, ast.Lt: lc < rc, ast.LtE: lc <= rc, ast.Gt: lc > rc, ast.GtE: lc >= rc}[type(op)]
            if isinstance(op, (ast.Eq, ast.NotEq)):
                same = self.rat(l) == self.rat(r)
                # generic symbols differ from constants and from each other unless they are the same term
                return same == isinstance(op, ast.Eq)
            raise Unsupported(f"order comparison on symbolic values: {ast.unparse(t)}")
        v = self.ev(t, fr, fi)
        if isinstance(v, bool) or v is None:
            return bool(v)
        if isinstance(v, ListRep):
            return not v.empty
        if isinstance(v, tuple):
            return len(v) > 0
        c = self._const(v)
        if c is not None:
            return c != 0
        raise Unsupported(f"truth value of symbolic {ast.unparse(t)[:50]}")

    def _const(self, v: Any):
        if isinstance(v, bool):
            return None
        if isinstance(v, (int, float, Fraction)):
            return Fraction(str(v)) if isinstance(v, float) else Fraction(v)
        if isinstance(v, Rat):
            return v.as_const()
        return None

    # ------------------------------------------------------------------ expressions
    def binop(self, op: ast.operator, l: Any, r: Any) -> Any:
        if isinstance(op, ast.Mult) and isinstance(l, (list, tuple)) and isinstance(r, int):
            return l * r
        a, b = self.rat(l), self.rat(r)
        if isinstance(op, ast.Add):
            out = a + b
        elif isinstance(op, ast.Sub):
            out = a - b
        elif isinstance(op, ast.Mult):
            out = a * b
        elif isinstance(op, ast.Div):
            out = a / b
        elif isinstance(op, ast.Pow):
            out = a**b
        elif isinstance(op, ast.MatMult):
            out = Rat.app(self.atoms, "matmul", (a, b))
        else:
            raise Unsupported(f"operator {type(op).__name__}")
        return Cell(out) if isinstance(l, Cell) or isinstance(r, Cell) else out

    def ev(self, e: ast.AST | None, fr: dict, fi: FuncInfo) -> Any:
        if e is None:
            return None
        if isinstance(e, ast.Constant):
            return e.value
        if isinstance(e, ast.Name):
            if e.id in fr:
                return fr[e.id]
            d = self.repo.resolve_dotted(fi.module, e.id)
            ok, v = self.repo.const_by_dotted(d)
            if ok:
                return v
            raise Unsupported(f"free name {e.id}")
        if isinstance(e, ast.Attribute):
            if isinstance(e.value, ast.Name) and e.value.id in ("torch", "math") and e.attr == "inf":
                return self.sym("inf")
            if isinstance(e.value, ast.Name) and e.value.id not in fr:
                d0 = self.repo.resolve_dotted(fi.module, e.value.id)
                if self.repo.class_by_dotted(d0) is not None:
                    return f"<{e.value.id}.{e.attr}>"  # enum member / class attribute: an opaque constant
            base = self.ev(e.value, fr, fi) if not (isinstance(e.value, ast.Name) and e.value.id in ("torch",)) else None
            if isinstance(base, Obj):
                if e.attr not in base.fields:
                    base.fields[e.attr] = self.sym(f"{base.name}.{e.attr}")  # unknown input: a foreign symbol (shows up in the diff)
                return base.fields[e.attr]
            if isinstance(base, Cell) and e.attr in ("T", "mT"):
                return Cell(Rat.app(self.atoms, "transpose", (base.v,)))
            if isinstance(base, Cell) and e.attr in ("shape", "dtype", "device", "ndim"):
                return "<tensor-meta>"
            # anything else read off a number / tensor: an uninterpreted function of it (can only match itself)
            if isinstance(base, Cell):
                return Cell(Rat.app(self.atoms, f"attr:{e.attr}", (base.v,)), base=base)
            if isinstance(base, (Rat, int, float, Fraction)) and not isinstance(base, bool):
                return Rat.app(self.atoms, f"attr:{e.attr}", (self.rat(base),))
            raise Unsupported(f"attribute {ast.unparse(e)[:50]}")
        if isinstance(e, ast.Subscript):
            nm, key = A.subscript_key(self.repo, fi.module, e)
            if nm is not None and isinstance(key, str) and isinstance(fr.get(nm), dict):
                if key not in fr[nm]:
                    fr[nm][key] = ListRep(Cell(self.sym(f"{nm}[{key}]")))
                return fr[nm][key]
            base = self.ev(e.value, fr, fi)
            if isinstance(base, Cell) and "subscript" in self.opaque:
                return self.opaque["subscript"](self, base, e.slice, fr, fi)
            if isinstance(base, ListRep):
                return base.elem
            if isinstance(base, tuple) and isinstance(e.slice, ast.Constant):
                return base[e.slice.value]
            if isinstance(base, str):
                return base
            if isinstance(base, Cell):  # element / slice of a tensor: an uninterpreted view of it
                return Cell(Rat.app(self.atoms, f"index[{ast.unparse(e.slice)[:30]}]", (base.v,)), base=base)
            if isinstance(base, Rat):  # element of an unknown (non-tensor) input, e.g. an index list: uninterpreted
                return Rat.app(self.atoms, f"index[{ast.unparse(e.slice)[:30]}]", (base,))
            raise Unsupported(f"subscript {ast.unparse(e)[:50]}")
        if isinstance(e, ast.BinOp):
            return self.binop(e.op, self.ev(e.left, fr, fi), self.ev(e.right, fr, fi))
        if isinstance(e, ast.UnaryOp):
            if isinstance(e.op, ast.Not):
                return not self.truth(e.operand, fr, fi)
            v = self.ev(e.operand, fr, fi)
            if isinstance(e.op, ast.USub):
                out = -self.rat(v)
                return Cell(out) if isinstance(v, Cell) else out
            raise Unsupported("unary operator")
        if isinstance(e, ast.IfExp):
            return self.ev(e.body if self.truth(e.test, fr, fi) else e.orelse, fr, fi)
        if isinstance(e, ast.BoolOp):
            return self.truth(e, fr, fi)
        if isinstance(e, ast.Compare):
            return self.truth(e, fr, fi)
        if isinstance(e, ast.Tuple):
            return tuple(self.ev(x, fr, fi) for x in e.elts)
        if isinstance(e, ast.List):
            return [self.ev(x, fr, fi) for x in e.elts]
        if isinstance(e, (ast.GeneratorExp, ast.ListComp)):
            if len(e.generators) != 1:
                raise Unsupported("nested comprehension")
            g = e.generators[0]
            it = self.ev(g.iter, fr, fi)
            if not isinstance(it, ListRep):
                raise Unsupported(f"comprehension over {ast.unparse(g.iter)[:50]}")
            if it.empty:
                return ListRep(None, empty=True)
            inner = dict(fr)
            self.assign(g.target, it.elem, inner, fi)
            return ListRep(self.ev(e.elt, inner, fi))
        if isinstance(e, ast.Call):
            return self.call(e, fr, fi)
        if isinstance(e, ast.JoinedStr):
            return "<fstring>"
        if isinstance(e, ast.NamedExpr):
            v = self.ev(e.value, fr, fi)
            self.assign(e.target, v, fr, fi)
            return v
        raise Unsupported(f"expression {type(e).__name__}")

    # ------------------------------------------------------------------ calls
    def call(self, e: ast.Call, fr: dict, fi: FuncInfo) -> Any:
        name = A.callee_name(self.repo, fi.module, e)
        args = lambda: [self.ev(a, fr, fi) for a in e.args]  # noqa: E731
        kw = lambda k, d=None: self.ev(A.keyword(e, k), fr, fi) if A.keyword(e, k) is not None else d  # noqa: E731
        if name in self.opaque:
            return self.opaque[name](self, args(), {k.arg: self.ev(k.value, fr, fi) for k in e.keywords if k.arg})
        f = e.func
        short = name.split(".")[-1]
        if isinstance(f, ast.Attribute) and f.attr in self.opaque and name.startswith("."):
            try:
                recv = self.ev(f.value, fr, fi)
            except Unsupported:
                recv = None  # e.g. a class name used to reach a static method
            return self.opaque[f.attr](self, args(), {k.arg: self.ev(k.value, fr, fi) for k in e.keywords if k.arg}, recv)
        if isinstance(f, ast.Name) and f.id in self.opaque:  # a helper the rule models, reached by bare name (moved to module level)
            return self.opaque[f.id](self, args(), {k.arg: self.ev(k.value, fr, fi) for k in e.keywords if k.arg}, None)
        # ---- builtins
        if isinstance(f, ast.Name) and f.id in ("tuple", "list", "iter"):
            a = args()
            return a[0] if a else ()
        if isinstance(f, ast.Name) and f.id == "zip":
            a = args()
            if any(isinstance(x, ListRep) and x.empty for x in a):
                return ListRep(None, empty=True)
            return ListRep(tuple(x.elem if isinstance(x, ListRep) else x for x in a))
        if isinstance(f, ast.Name) and f.id == "enumerate":
            a = args()[0]
            return ListRep((self.sym("<index>"), a.elem), empty=a.empty)
        if isinstance(f, ast.Name) and f.id in ("bool", "float", "int"):
            return args()[0]
        if isinstance(f, ast.Name) and (f.id.endswith("Error") or f.id.endswith("Exception")):
            return "<exception>"
        if isinstance(f, ast.Name) and f.id == "range":
            return ListRep(self.sym("<range-index>"))
        if isinstance(f, ast.Attribute) and f.attr == "append" and isinstance(f.value, ast.Name) and isinstance(fr.get(f.value.id), list):
            fr[f.value.id].append(self.ev(e.args[0], fr, fi))
            return None
        if name.startswith(("logging.", "logger.")) or (isinstance(f, ast.Attribute) and isinstance(f.value, ast.Name) and f.value.id == "logger"):
            return None
        if isinstance(f, ast.Name) and f.id == "getattr" and len(e.args) == 3:
            base = self.ev(e.args[0], fr, fi)
            if isinstance(base, Obj) and isinstance(e.args[1], ast.Constant):
                return base.fields.get(e.args[1].value, self.ev(e.args[2], fr, fi))
        if name == "typing.cast":
            return self.ev(e.args[1], fr, fi)
        if name == "fractions.Fraction":
            return self.ev(e.args[0], fr, fi)
        # ---- torch: element-wise foreach family
        if name.startswith("torch._foreach_"):
            op = name[len("torch._foreach_") :]
            inplace = op.endswith("_")
            op = op.rstrip("_")
            a = [self.lift(x) for x in args()]
            dst = a[0]
            x = self.rat(dst)
            if op == "add":
                res = x + self.rat(kw("alpha", 1)) * self.rat(a[1])
            elif op == "sub":
                res = x - self.rat(kw("alpha", 1)) * self.rat(a[1])
            elif op == "mul":
                res = x * self.rat(a[1])
            elif op == "div":
                res = x / self.rat(a[1])
            elif op == "sqrt":
                res = x.sqrt()
            elif op == "addcmul":
                res = x + self.rat(kw("value", 1)) * self.rat(a[1]) * self.rat(a[2])
            elif op == "addcdiv":
                res = x + self.rat(kw("value", 1)) * self.rat(a[1]) / self.rat(a[2])
            elif op == "lerp":
                w = kw("weight", a[2] if len(a) > 2 else None)
                res = x + self.rat(w) * (self.rat(a[1]) - x)
            elif op == "copy":
                res = self.rat(a[1])
            elif op == "norm":
                res = Rat.app(self.atoms, "norm", (x,))
            elif op == "neg":
                res = -x
            elif op == "pow":
                res = x ** self.rat(a[1])
            else:
                raise Unsupported(f"foreach op {op}")
            if inplace:
                if isinstance(dst, Cell):
                    dst.v = res
                # an in-place write to something that is not one of the modelled tensors (an unknown attribute, a foreign
                # list) updates nothing the oracle looks at: the comparison then reports the missing update
                return None
            return ListRep(Cell(res))
        if name in ("torch.tensor", "torch.as_tensor"):
            return Cell(self.rat(self.ev(e.args[0], fr, fi)))
        if name == "torch.tensordot":
            a = args()
            return Cell(Rat.app(self.atoms, "tensordot", (self.rat(a[0]), self.rat(a[1]))))
        if name in ("torch.autograd.profiler.record_function",):
            return None
        if name in ("torch.add", "torch.sub", "torch.subtract", "torch.mul", "torch.multiply", "torch.div", "torch.divide", "torch.true_divide", "torch.neg", "torch.negative", "torch.pow", "torch.sqrt", "torch.square") and not any(k.arg == "out" for k in e.keywords):
            # the function twins of the element-wise operators are the operators
            a = [self.rat(x) for x in args()]
            op = name.split(".")[1]
            if op in ("add",):
                return Cell(a[0] + self.rat(kw("alpha", 1)) * a[1])
            if op in ("sub", "subtract"):
                return Cell(a[0] - self.rat(kw("alpha", 1)) * a[1])
            if op in ("mul", "multiply"):
                return Cell(a[0] * a[1])
            if op in ("div", "divide", "true_divide"):
                return Cell(a[0] / a[1])
            if op in ("neg", "negative"):
                return Cell(-a[0])
            if op == "pow":
                return Cell(a[0] ** a[1])
            if op == "sqrt":
                return Cell(a[0].sqrt())
            return Cell(a[0] * a[0])
        if name.startswith("torch.") and not name.startswith(("torch.distributed", "torch.backends", "torch.cuda")):
            # any other torch function: an uninterpreted function of its tensor / scalar arguments (keyword values included)
            vals = []
            for a in args():
                if isinstance(a, (Cell, Rat, int, float, Fraction)) and not isinstance(a, bool):
                    vals.append(self.rat(a))
            key = ",".join(f"{k.arg}={ast.unparse(k.value)}" for k in e.keywords if k.arg)
            return Cell(Rat.app(self.atoms, name, tuple(vals), key=key))
        # ---- tensor methods
        if isinstance(f, ast.Attribute) and name.startswith("."):
            recv = self.ev(f.value, fr, fi)
            if isinstance(recv, Cell):
                m = f.attr
                a = args()
                x = recv.v
                table = {
                    "mul": lambda: x * self.rat(a[0]), "div": lambda: x / self.rat(a[0]), "add": lambda: x + self.rat(kw("alpha", 1)) * self.rat(a[0]),
                    "sub": lambda: x - self.rat(kw("alpha", 1)) * self.rat(a[0]), "pow": lambda: x ** self.rat(a[0]), "square": lambda: x * x, "sqrt": lambda: x.sqrt(),
                    "clone": lambda: x, "to": lambda: x, "detach": lambda: x, "neg": lambda: -x, "copy": lambda: self.rat(a[0]),
                }  # fmt: skip
                base = m.rstrip("_")
                if base in table:
                    res = table[base]()
                    if m.endswith("_"):
                        recv.v = res
                        self._write_through(recv, res)
                        return recv
                    return Cell(res)
                if m in ("any", "item", "numel", "dim"):
                    raise Unsupported(f"data-dependent value {ast.unparse(e)[:40]} (decide it in the case)")
                # any other tensor method: an uninterpreted function of the receiver and its arguments
                vals = [x] + [self.rat(v) for v in a if isinstance(v, (Cell, Rat, int, float, Fraction)) and not isinstance(v, bool)]
                res = Rat.app(self.atoms, "Tensor." + base, tuple(vals), key=",".join(f"{k.arg}={ast.unparse(k.value)}" for k in e.keywords if k.arg))
                if m.endswith("_"):
                    recv.v = res
                    self._write_through(recv, res)
                    return recv
                from .tables import VIEW_METHODS

                # a view method's result shares storage with the receiver: an in-place update of it writes through
                return Cell(res, base=recv) if m in VIEW_METHODS else Cell(res)
            if isinstance(recv, Obj) or recv is None:
                pass
        # ---- repo callees: inline when listed
        callee = self._resolve(e, fr, fi)
        if callee is not None:
            cfi, selfobj = callee
            if cfi.qual in self.inline or cfi.name in self.inline:
                env = {}
                params = cfi.params[1:] if (cfi.cls is not None and not cfi.is_static and cfi.params and cfi.params[0] == "self") else cfi.params
                for p, a in zip(params, e.args):
                    env[p] = self.ev(a, fr, fi)
                for k in e.keywords:
                    if k.arg:
                        env[k.arg] = self.ev(k.value, fr, fi)
                return self.run(cfi, env, selfobj)
        raise Unsupported(f"call {ast.unparse(e.func)[:60]}")

    def _resolve(self, e: ast.Call, fr: dict, fi: FuncInfo):
        f = e.func
        if isinstance(f, ast.Attribute):
            if isinstance(f.value, ast.Name) and f.value.id == "self" and fi.cls is not None:
                so = fr.get("self")
                cls = getattr(so, "cls", None) or fi.cls
                m = self.repo.lookup_method(cls, f.attr)
                return (m, so) if m is not None else None
            if isinstance(f.value, ast.Call) and isinstance(f.value.func, ast.Name) and f.value.func.id == "super" and fi.cls is not None:
                so = fr.get("self")
                cls = getattr(so, "cls", None) or fi.cls
                m = self.repo.lookup_method(cls, f.attr, after=fi.cls)
                return (m, so) if m is not None else None
            d = self.repo.dotted_of(fi.module, f)
            m = self.repo.func_by_dotted(d) if d else None
            if m is not None:
                return (m, None)
        else:
            d = self.repo.dotted_of(fi.module, f)
            m = self.repo.func_by_dotted(d) if d else None
            if m is not None:
                return (m, None)
        return None
