"""E9 — dtype-tag flow (small, intra-procedural with points-to supplied allocation tags).

Tags:  ("of", name)   the dtype of tensor parameter/variable `name`
       ("alloc", expr) allocated with dtype expression `expr` (e.g. "block.dtype", "self._factor_matrix_dtype")
Same-dtype operations (matmul `@`, mm, tensordot, einsum, addmm ...) require all tensor operands to carry equal tags.
"""

from __future__ import annotations

import ast

from . import astutil as A
from . import tables as T
from .loader import FuncInfo, Repo


def infer_tags(repo: Repo, fi: FuncInfo, seed: dict[str, object]) -> tuple[dict[str, object], list[tuple[ast.AST, list[tuple[str, object]]]]]:
    """Flow-insensitive tag inference for locals of `fi` from `seed` (param -> tag).  Returns (env, same-dtype sites)
    where each site is (node, [(operand source, tag), ...])."""
    m = fi.module
    env: dict[str, object] = dict(seed)

    def tag(e: ast.AST, depth: int = 0):
        if depth > 8 or e is None:
            return None
        if isinstance(e, ast.Name):
            return env.get(e.id)
        if isinstance(e, ast.Call):
            f = e.func
            if isinstance(f, ast.Attribute):
                if f.attr == "to":
                    d = A.keyword(e, "dtype") or (e.args[0] if e.args else None)
                    if isinstance(d, ast.Attribute) and d.attr == "dtype":
                        return tag(d.value, depth + 1)
                    if d is None:
                        return tag(f.value, depth + 1)
                    return ("expr", ast.unparse(d))
                if f.attr in ("double", "float", "half", "bfloat16"):
                    return ("expr", f.attr)
                if f.attr in T.SCALAR_METHODS:
                    return None
                name = A.callee_name(repo, m, e)
                if name.startswith("torch.") or name.startswith("."):
                    # method / torch function: result dtype follows its first tensor operand
                    if name.startswith("torch."):
                        for a in e.args:
                            t = tag(a, depth + 1)
                            if t is not None:
                                return t
                        return None
                    return tag(f.value, depth + 1)
            name = A.callee_name(repo, m, e)
            if name.startswith("torch."):
                for a in list(e.args) + [k.value for k in e.keywords]:
                    t = tag(a, depth + 1)
                    if t is not None:
                        return t
            return None
        if isinstance(e, ast.Attribute):
            return tag(e.value, depth + 1)
        if isinstance(e, ast.Subscript):
            return tag(e.value, depth + 1)
        if isinstance(e, ast.BinOp):
            l = tag(e.left, depth + 1)
            return l if l is not None else tag(e.right, depth + 1)
        if isinstance(e, ast.IfExp):
            return tag(e.body, depth + 1) or tag(e.orelse, depth + 1)
        return None

    for _ in range(4):
        for n in A.walk_no_nested(fi.node):
            if isinstance(n, ast.Assign):
                t = tag(n.value)
                for tg in n.targets:
                    if isinstance(tg, ast.Name) and t is not None and tg.id not in seed:
                        env[tg.id] = t
                    elif isinstance(tg, ast.Tuple) and isinstance(n.value, ast.Tuple) and len(tg.elts) == len(n.value.elts):
                        pass
            # tuple swap  last_Q, Q = Q, qr(...).Q
            if isinstance(n, ast.Assign) and isinstance(n.targets[0], ast.Tuple) and isinstance(n.value, ast.Tuple) and len(n.targets[0].elts) == len(n.value.elts):
                for tg, v in zip(n.targets[0].elts, n.value.elts):
                    t = tag(v)
                    if isinstance(tg, ast.Name) and t is not None and tg.id not in seed:
                        env[tg.id] = t

    sites = []
    for n in A.walk_no_nested(fi.node):
        ops = None
        if isinstance(n, ast.BinOp) and type(n.op).__name__ in T.SAME_DTYPE_BINOPS:
            ops = [n.left, n.right]
        elif isinstance(n, ast.Call):
            name = A.callee_name(repo, m, n)
            if name in T.SAME_DTYPE_FUNCS:
                ops = [a for a in n.args if not isinstance(a, ast.Constant)]
            elif isinstance(n.func, ast.Attribute) and n.func.attr in T.SAME_DTYPE_METHODS and name.startswith("."):
                ops = [n.func.value] + list(n.args)
        if ops:
            tagged = [(ast.unparse(o), tag(o)) for o in ops]
            tagged = [(s, t) for s, t in tagged if t is not None]
            if len(tagged) >= 2:
                sites.append((n, tagged))
    return env, sites
